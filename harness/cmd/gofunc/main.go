// gofunc translates the bodies of selected functions of github.com/bool64/cache (current working tree) into
// terms of the small Go IR of /verif/coq/theories/GoIR.v (Generated/Funcs.v). It is a plain, syntax-directed
// dump: statements and expressions keep their shape; what a selector, a call or a constant MEANS is decided
// inside Coq by the interpreter of GoIR.v and the tie lemmas (theories/Tie*.v), not here.
//
// The only semantic help taken from go/types:
//   - constant expressions (literals, named constants, products such as 15*time.Second) are folded to their
//     value (GInt / GFloat / GStr / GBool);
//   - an identifier is a local (GId) when it is declared inside the function (parameters, receiver, results,
//     := and var), otherwise it is printed as a leaf (GLeaf), like selectors, dereferences and index expressions;
//   - the callee of a call is printed (go/printer) and becomes the name of a GCall.
//
// Anything outside the subset becomes GOther / GOtherS with the printed source, which no tie lemma accepts.
package main

import (
	"bytes"
	_ "embed"
	"fmt"
	"go/ast"
	"go/build"
	"go/constant"
	"go/importer"
	"go/parser"
	"go/printer"
	"go/token"
	"go/types"
	"math/big"
	"os"
	"path/filepath"
	"sort"
	"strings"
)

// functions to translate: "Recv.Method" or "Func"
var wanted = map[string]bool{
	"Trait.PrepareRead": true, "TraitOf.PrepareRead": true, "Trait.TTL": true, "Trait.expireAt": true,
	"Trait.invokeCleanup": true, "Trait.countOverflow": true, "Trait.heapInUseOverflow": true, "Trait.sysOverflow": true,
	"WithTTL": true, "TTL": true, "SkipRead": true, "WithSkipRead": true, "withoutSkipRead": true,
	"detachedContext.Deadline": true, "detachedContext.Done": true, "detachedContext.Err": true, "detachedContext.Value": true,
	"Invalidator.Invalidate": true,
	"shardedMap.Read":        true, "shardedMap.Write": true, "shardedMap.Delete": true, "shardedMap.deleteExpired": true, "shardedMap.ExpireAll": true,
	"shardedMapOf.Read": true, "shardedMapOf.Write": true, "shardedMapOf.Delete": true, "shardedMapOf.deleteExpired": true, "shardedMapOf.ExpireAll": true,
	"syncMap.Read": true, "syncMap.Write": true, "syncMap.Delete": true, "syncMap.deleteExpired": true, "syncMap.ExpireAll": true,
	"Failover.ctxSync": true, "FailoverOf.ctxSync": true, "Failover.recentlyFailed": true, "FailoverOf.recentlyFailed": true,
	"Failover.freshEnough": true, "FailoverOf.freshEnough": true, "Failover.valueFromError": true,
	"Failover.Get": true, "FailoverOf.Get": true, "Failover.waitForValue": true, "FailoverOf.waitForValue": true,
	"Failover.doBuild": true, "FailoverOf.doBuild": true, "Failover.refreshStale": true, "FailoverOf.refreshStale": true,
	"HTTPTransfer.Export": true, "HTTPTransfer.Import": true, "HTTPTransfer.importCache": true, "HTTPTransfer.AddCache": true,
	"shardedMap.evictLeast": true, "shardedMapOf.evictLeast": true, "syncMap.evictLeast": true,
	"shardedMap.evictLeastCounter": true, "shardedMap.evictMostExpired": true, "Trait.janitor": true, "Trait.reportItemsCount": true,
	"shardedMap.Load": true, "shardedMap.Store": true, "shardedMapOf.Load": true, "shardedMapOf.Store": true,
	"syncMap.Load": true, "syncMap.Store": true, "NewShardedMap": true, "NewSyncMap": true, "NewShardedMapOf": true,
	"Trait.init": true, "NewFailover": true, "NewFailoverOf": true,
	"recursiveTypeHash": true,
	"GobRegister":       true, "GobTypesHash": true, "GobTypesHashReset": true,
	"ShardedMap.Restore": true, "ShardedMapOf.Restore": true, "SyncMap.Restore": true,
	"ShardedMap.Dump": true, "ShardedMapOf.Dump": true, "SyncMap.Dump": true,
	"shardedMap.DeleteAll": true, "shardedMapOf.DeleteAll": true, "syncMap.DeleteAll": true,
	"shardedMap.Len": true, "shardedMapOf.Len": true, "syncMap.Len": true,
	"shardedMap.Walk": true, "shardedMapOf.Walk": true, "syncMap.Walk": true,
	"InvalidationIndex.AddLabels": true, "InvalidationIndex.AddCache": true, "InvalidationIndex.InvalidateByLabels": true,
	"InvalidationIndex.cutKeys": true, "InvalidationIndex.invalidateByLabels": true,
	"Trait.NotifyWritten": true, "Trait.NotifyDeleted": true, "Trait.NotifyExpiredAll": true, "Trait.NotifyDeletedAll": true,
	"TraitOf.NotifyWritten": true,
	"errExpired.Error":      true, "errExpired.ExpiredAt": true, "errExpired.Is": true, "errExpired.Value": true,
	"errExpiredOf.Error": true, "errExpiredOf.ExpiredAt": true, "errExpiredOf.Is": true, "errExpiredOf.Value": true,
	"TraitEntry.ExpireAt": true, "TraitEntry.Key": true, "TraitEntry.Value": true,
	"TraitEntryOf.ExpireAt": true, "TraitEntryOf.Key": true, "TraitEntryOf.Value": true,
	"ts": true, "tsTime": true, "readerCnt.Read": true, "writerCnt.Write": true,
	"NoOp.Read": true, "NoOp.Write": true, "NoOp.Delete": true, "syncMap.deleteEntry": true, "syncMap.expireEntry": true,
	"NewInvalidationIndex": true, "HTTPTransfer.CachesCount": true, "NewTrait": true, "NewTraitOf": true,
	"SentinelError.Error": true, "ShardedMapOf.WalkDumpRestorer": true, "shardedMapLegacyWalkerOf.Walk": true,
	"syncMap.evictLeastCounter": true, "syncMap.evictMostExpired": true, "shardedMapOf.evictLeastCounter": true, "shardedMapOf.evictMostExpired": true,
}

type tr struct {
	fset   *token.FileSet
	info   *types.Info
	pkg    *types.Package
	locals map[types.Object]string // declared inside the function -> its name in the IR (a shadowing declaration gets a fresh name)
	used   map[string]int
	decls  map[types.Object]*ast.FuncDecl // package-level functions and methods by object
	depth  int
}

// known.txt lists the functions that existed when the tie lemmas were written. A call to a package-local function that
// is NOT in this list (a helper introduced by a later refactoring) is inlined when that is plainly semantics-preserving
// (see inlineable), so that "extract method" does not by itself break a tie; everything else stays a call.
//
//go:embed known.txt
var knownTxt string

var known = func() map[string]bool {
	m := map[string]bool{}
	for _, l := range strings.Fields(knownTxt) {
		m[l] = true
	}

	return m
}()

func declName(fd *ast.FuncDecl) string {
	name := fd.Name.Name
	if r := recvName(fd); r != "" {
		name = r + "." + name
	}

	return name
}

// callee returns the declaration of the package-local function or method a call refers to, if any.
func (t *tr) callee(c *ast.CallExpr) (*ast.FuncDecl, ast.Expr) {
	switch f := c.Fun.(type) {
	case *ast.Ident:
		if obj := t.info.Uses[f]; obj != nil {
			if fd := t.decls[originOf(obj)]; fd != nil {
				return fd, nil
			}
		}
	case *ast.SelectorExpr:
		if obj := t.info.Uses[f.Sel]; obj != nil {
			if fd := t.decls[originOf(obj)]; fd != nil && fd.Recv != nil {
				return fd, f.X
			}
		}
	}

	return nil, nil
}

func originOf(obj types.Object) types.Object {
	if fn, ok := obj.(*types.Func); ok {
		return fn.Origin()
	}

	return obj
}

// inlineable: the callee is a new helper (not in known.txt), every argument is an identifier spelled like the
// parameter it is passed for and the receiver expression is an identifier spelled like the callee's receiver (so that
// the callee's body reads the same in the caller), and the body has no loop, defer, go, closure or labelled statement and
// no return except possibly as its last statement.
func (t *tr) inlineable(c *ast.CallExpr) (*ast.FuncDecl, bool) {
	fd, recv := t.callee(c)
	if fd == nil || fd.Body == nil || known[declName(fd)] || t.depth > 3 || c.Ellipsis != token.NoPos {
		return nil, false
	}

	same := func(e ast.Expr, name string) bool {
		id, ok := e.(*ast.Ident)

		return ok && id.Name == name
	}

	if fd.Recv != nil {
		if len(fd.Recv.List) != 1 || len(fd.Recv.List[0].Names) != 1 || recv == nil || !same(recv, fd.Recv.List[0].Names[0].Name) {
			return nil, false
		}
	}

	var params []string

	for _, f := range fd.Type.Params.List {
		for _, n := range f.Names {
			params = append(params, n.Name)
		}
	}

	if len(params) != len(c.Args) {
		return nil, false
	}

	for i, a := range c.Args {
		if !same(a, params[i]) {
			return nil, false
		}
	}

	ok := true
	n := len(fd.Body.List)

	ast.Inspect(fd.Body, func(x ast.Node) bool {
		switch s := x.(type) {
		case *ast.ForStmt, *ast.RangeStmt, *ast.DeferStmt, *ast.GoStmt, *ast.FuncLit, *ast.LabeledStmt, *ast.SelectStmt:
			ok = false
		case *ast.ReturnStmt:
			if n == 0 || s != fd.Body.List[n-1] {
				ok = false
			}
		}

		return ok
	})

	return fd, ok
}

// bindParams makes the callee's receiver and parameters denote the caller's identifiers of the same name.
func (t *tr) bindParams(fd *ast.FuncDecl, c *ast.CallExpr, recv ast.Expr) {
	bind := func(n *ast.Ident, arg ast.Expr) {
		obj := t.info.Defs[n]
		if obj == nil {
			return
		}

		if id, ok := arg.(*ast.Ident); ok {
			if ao := t.info.ObjectOf(id); ao != nil {
				if nm, ok := t.locals[ao]; ok {
					t.locals[obj] = nm

					return
				}
			}
		}

		t.locals[obj] = n.Name
	}

	if fd.Recv != nil && recv != nil {
		bind(fd.Recv.List[0].Names[0], recv)
	}

	i := 0

	for _, f := range fd.Type.Params.List {
		for _, n := range f.Names {
			bind(n, c.Args[i])
			i++
		}
	}
}

// inlineCall: the callee's statements but its trailing return, and the expressions that return yields.
func (t *tr) inlineCall(fd *ast.FuncDecl, c *ast.CallExpr) ([]string, []ast.Expr) {
	_, recv := t.callee(c)
	t.bindParams(fd, c, recv)
	t.depth++

	defer func() { t.depth-- }()

	body := fd.Body.List

	var results []ast.Expr

	if n := len(body); n > 0 {
		if r, ok := body[n-1].(*ast.ReturnStmt); ok {
			results = r.Results
			body = body[:n-1]
		}
	}

	var stmts []string

	if fd.Type.Results != nil { // named results start as zero values
		for _, fld := range fd.Type.Results.List {
			var names []string

			for _, n := range fld.Names {
				if obj := t.info.Defs[n]; obj != nil {
					names = append(names, q(t.declare(obj)))
				}
			}

			if len(names) > 0 {
				stmts = append(stmts, fmt.Sprintf("(GVar %s %s)", list(names), q(t.src(fld.Type))))
			}
		}
	}

	for _, s := range body {
		stmts = append(stmts, t.stmt(s))
	}

	return stmts, results
}

// declare registers a local; the first object of a name keeps it, later ones (shadowing: `if err := ...`) get name'N.
func (t *tr) declare(obj types.Object) string {
	if n, ok := t.locals[obj]; ok {
		return n
	}

	name := obj.Name()
	if name != "_" {
		t.used[name]++

		if k := t.used[name]; k > 1 {
			name = fmt.Sprintf("%s'%d", name, k)
		}
	}

	t.locals[obj] = name

	return name
}

func (t *tr) src(n ast.Node) string {
	var b bytes.Buffer

	_ = printer.Fprint(&b, t.fset, n)

	return strings.Join(strings.Fields(b.String()), " ")
}

func q(s string) string { return "\"" + strings.ReplaceAll(s, "\"", "\"\"") + "\"" }

func z(i *big.Int) string {
	if i.Sign() < 0 {
		return "(" + i.String() + ")"
	}

	return i.String()
}

func list(items []string) string { return "[" + strings.Join(items, "; ") + "]" }

func (t *tr) constant(e ast.Expr) (string, bool) {
	tv, ok := t.info.Types[e]
	if !ok || tv.Value == nil {
		return "", false
	}

	basic, _ := tv.Type.Underlying().(*types.Basic)
	isFloat := basic != nil && basic.Info()&types.IsFloat != 0

	switch tv.Value.Kind() {
	case constant.Bool:
		if constant.BoolVal(tv.Value) {
			return "(GBool true)", true
		}

		return "(GBool false)", true
	case constant.String:
		return "(GStr " + q(constant.StringVal(tv.Value)) + ")", true
	case constant.Int:
		if i, ok := constant.Val(tv.Value).(*big.Int); ok {
			if isFloat {
				return fmt.Sprintf("(GFloat %s 1)", z(i)), true
			}

			return "(GInt " + z(i) + ")", true
		}

		if i, ok := constant.Int64Val(tv.Value); ok {
			if isFloat {
				return fmt.Sprintf("(GFloat %s 1)", z(big.NewInt(i))), true
			}

			return "(GInt " + z(big.NewInt(i)) + ")", true
		}
	case constant.Float:
		if r, ok := constant.Val(tv.Value).(*big.Rat); ok {
			return fmt.Sprintf("(GFloat %s %s)", z(r.Num()), z(r.Denom())), true
		}

		if f, ok := constant.Val(tv.Value).(*big.Float); ok {
			if r, _ := f.Rat(nil); r != nil {
				return fmt.Sprintf("(GFloat %s %s)", z(r.Num()), z(r.Denom())), true
			}
		}
	}

	return "", false
}

func (t *tr) expr(e ast.Expr) string {
	if c, ok := t.constant(e); ok {
		return c
	}

	// a type used as an argument (make, new): its printed form
	if tv, ok := t.info.Types[e]; ok && tv.IsType() {
		return "(GStr " + q("type "+t.src(e)) + ")"
	}

	switch x := e.(type) {
	case *ast.ParenExpr:
		return t.expr(x.X)
	case *ast.Ident:
		switch x.Name {
		case "nil":
			return "GNil"
		case "true":
			return "(GBool true)"
		case "false":
			return "(GBool false)"
		}

		if obj := t.info.ObjectOf(x); obj != nil {
			if n, ok := t.locals[obj]; ok {
				return "(GId " + q(n) + ")"
			}
		}

		return "(GLeaf " + q(x.Name) + ")"
	case *ast.SelectorExpr:
		// a selector on something that is not a plain path (a composite literal, a call): keep the operand
		if !isPath(x.X) {
			return fmt.Sprintf("(GSel %s %s)", t.expr(x.X), q(x.Sel.Name))
		}

		return "(GLeaf " + q(t.src(e)) + ")"
	case *ast.StarExpr, *ast.IndexExpr:
		return "(GLeaf " + q(t.src(e)) + ")"
	case *ast.SliceExpr:
		if !x.Slice3 {
			part := func(e ast.Expr) string {
				if e == nil {
					return "GNil"
				}

				return t.expr(e)
			}

			return fmt.Sprintf("(GCall %s %s)", q("$slice"), list([]string{t.expr(x.X), part(x.Low), part(x.High)}))
		}
	case *ast.UnaryExpr:
		return fmt.Sprintf("(GUn %s %s)", q(x.Op.String()), t.expr(x.X))
	case *ast.BinaryExpr:
		return fmt.Sprintf("(GBin %s %s %s)", q(x.Op.String()), t.expr(x.X), t.expr(x.Y))
	case *ast.CallExpr:
		if fd, ok := t.inlineable(x); ok && len(fd.Body.List) == 1 && fd.Type.Results != nil && len(fd.Type.Results.List) == 1 &&
			len(fd.Type.Results.List[0].Names) == 0 {
			if r, isRet := fd.Body.List[0].(*ast.ReturnStmt); isRet && len(r.Results) == 1 {
				_, recv := t.callee(x)
				t.bindParams(fd, x, recv)
				t.depth++

				defer func() { t.depth-- }()

				return t.expr(r.Results[0])
			}
		}

		args := make([]string, len(x.Args))
		for i, a := range x.Args {
			args[i] = t.expr(a)
		}

		// an immediately applied function literal (defer func() { ... }(), go func() { ... }())
		if fl, ok := x.Fun.(*ast.FuncLit); ok {
			return fmt.Sprintf("(GCall %s %s)", q("$closure"), list(append([]string{t.expr(fl)}, args...)))
		}

		return fmt.Sprintf("(GCall %s %s)", q(t.src(x.Fun)), list(args))
	case *ast.CompositeLit:
		var fs []string

		for i, el := range x.Elts {
			if kv, ok := el.(*ast.KeyValueExpr); ok {
				fs = append(fs, fmt.Sprintf("(%s, %s)", q(t.src(kv.Key)), t.expr(kv.Value)))
			} else {
				fs = append(fs, fmt.Sprintf("(%s, %s)", q(fmt.Sprint(i)), t.expr(el)))
			}
		}

		ty := ""
		if x.Type != nil {
			ty = t.src(x.Type)
		}

		return fmt.Sprintf("(GLit %s %s)", q(ty), list(fs))
	case *ast.TypeAssertExpr:
		ty := "type"
		if x.Type != nil {
			ty = t.src(x.Type)
		}

		return fmt.Sprintf("(GAssert %s %s)", t.expr(x.X), q(ty))
	case *ast.FuncLit:
		return fmt.Sprintf("(GFunc %s)", t.block(x.Body.List))
	}

	return "(GOther " + q(t.src(e)) + ")"
}

// isPath: identifiers, selectors, dereferences and index expressions over them (a.b.c, *p, m[k].f)
func isPath(e ast.Expr) bool {
	switch x := e.(type) {
	case *ast.Ident:
		return true
	case *ast.SelectorExpr:
		return isPath(x.X)
	case *ast.StarExpr:
		return isPath(x.X)
	case *ast.IndexExpr:
		return isPath(x.X)
	case *ast.ParenExpr:
		return isPath(x.X)
	}

	return false
}

func (t *tr) exprs(es []ast.Expr) string {
	out := make([]string, len(es))
	for i, e := range es {
		out[i] = t.expr(e)
	}

	return list(out)
}

func (t *tr) block(l []ast.Stmt) string {
	out := make([]string, 0, len(l))
	for _, s := range l {
		out = append(out, t.stmt(s))
	}

	return list(out)
}

func (t *tr) define(lhs []ast.Expr) {
	for _, l := range lhs {
		if id, ok := l.(*ast.Ident); ok {
			if obj := t.info.Defs[id]; obj != nil {
				t.declare(obj)
			}
		}
	}
}

func (t *tr) stmt(s ast.Stmt) string {
	switch x := s.(type) {
	case *ast.ExprStmt:
		if c, isCall := x.X.(*ast.CallExpr); isCall {
			if fd, ok := t.inlineable(c); ok && (fd.Type.Results == nil || len(fd.Type.Results.List) == 0) {
				stmts, _ := t.inlineCall(fd, c)

				return "(GBlock " + list(stmts) + ")"
			}
		}

		return "(GExprS " + t.expr(x.X) + ")"
	case *ast.AssignStmt:
		if x.Tok == token.ASSIGN || x.Tok == token.DEFINE {
			if len(x.Rhs) == 1 {
				if c, isCall := x.Rhs[0].(*ast.CallExpr); isCall {
					if fd, ok := t.inlineable(c); ok && len(fd.Body.List) > 1 {
						stmts, results := t.inlineCall(fd, c)
						if len(results) == len(x.Lhs) {
							rhs := t.exprs(results)

							if x.Tok == token.DEFINE {
								t.define(x.Lhs)
							}

							return "(GBlock " + list(append(stmts, fmt.Sprintf("(GAssign %s %s)", t.exprs(x.Lhs), rhs))) + ")"
						}
					}
				}
			}

			rhs := t.exprs(x.Rhs) // before the left-hand side is declared: `err := f(err)` reads the outer err

			if x.Tok == token.DEFINE {
				t.define(x.Lhs)
			}

			return fmt.Sprintf("(GAssign %s %s)", t.exprs(x.Lhs), rhs)
		}

		// x op= y
		op := strings.TrimSuffix(x.Tok.String(), "=")
		if len(x.Lhs) == 1 && len(x.Rhs) == 1 {
			return fmt.Sprintf("(GAssign [%s] [GBin %s %s %s])", t.expr(x.Lhs[0]), q(op), t.expr(x.Lhs[0]), t.expr(x.Rhs[0]))
		}
	case *ast.IncDecStmt:
		op := "+"
		if x.Tok == token.DEC {
			op = "-"
		}

		return fmt.Sprintf("(GAssign [%s] [GBin %s %s (GInt 1)])", t.expr(x.X), q(op), t.expr(x.X))
	case *ast.DeclStmt:
		if gd, ok := x.Decl.(*ast.GenDecl); ok && gd.Tok == token.VAR {
			var out []string

			for _, sp := range gd.Specs {
				vs := sp.(*ast.ValueSpec)

				var lhs []string

				var names []string

				for _, n := range vs.Names {
					nm := n.Name
					if obj := t.info.Defs[n]; obj != nil {
						nm = t.declare(obj)
					}

					names = append(names, q(nm))
					lhs = append(lhs, "GId "+q(nm))
				}

				if len(vs.Values) > 0 {
					out = append(out, fmt.Sprintf("(GAssign %s %s)", list(lhs), t.exprs(vs.Values)))
				} else {
					ty := ""
					if vs.Type != nil {
						ty = t.src(vs.Type)
					}

					out = append(out, fmt.Sprintf("(GVar %s %s)", list(names), q(ty)))
				}
			}

			if len(out) == 1 {
				return out[0]
			}

			return "(GBlock " + list(out) + ")"
		}
	case *ast.IfStmt:
		init := "[]"
		if x.Init != nil {
			init = list([]string{t.stmt(x.Init)})
		}

		el := "[]"

		switch e := x.Else.(type) {
		case *ast.BlockStmt:
			el = t.block(e.List)
		case *ast.IfStmt:
			el = list([]string{t.stmt(e)})
		}

		return fmt.Sprintf("(GIf %s %s %s %s)", init, t.expr(x.Cond), t.block(x.Body.List), el)
	case *ast.SwitchStmt:
		if x.Init == nil {
			tag := "(GBool true)"
			if x.Tag != nil {
				tag = t.expr(x.Tag)
			}

			var cs []string

			for _, c := range x.Body.List {
				cc := c.(*ast.CaseClause)
				cs = append(cs, fmt.Sprintf("(%s, %s)", t.exprs(cc.List), t.block(cc.Body)))
			}

			return fmt.Sprintf("(GSwitch %s %s)", tag, list(cs))
		}
	case *ast.SelectStmt:
		// select over receives whose values are discarded: the runtime's choice is the oracle "$select" over the channel
		// expressions (in source order); `default` is the switch's default
		var chans, cs []string

		ok := true

		for _, c := range x.Body.List {
			cc := c.(*ast.CommClause)
			if cc.Comm == nil {
				cs = append(cs, fmt.Sprintf("([], %s)", t.block(cc.Body)))

				continue
			}

			es, isExpr := cc.Comm.(*ast.ExprStmt)
			if !isExpr {
				ok = false

				break
			}

			u, isRecv := es.X.(*ast.UnaryExpr)
			if !isRecv || u.Op != token.ARROW {
				ok = false

				break
			}

			chans = append(chans, t.expr(u.X))
			cs = append(cs, fmt.Sprintf("([(GInt %d)], %s)", len(chans)-1, t.block(cc.Body)))
		}

		if ok {
			return fmt.Sprintf("(GSwitch (GCall %s %s) %s)", q("$select"), list(chans), list(cs))
		}
	case *ast.ReturnStmt:
		if len(x.Results) == 1 {
			if c, isCall := x.Results[0].(*ast.CallExpr); isCall {
				if fd, ok := t.inlineable(c); ok && len(fd.Body.List) > 1 {
					stmts, results := t.inlineCall(fd, c)
					if len(results) > 0 {
						return "(GBlock " + list(append(stmts, "(GReturn "+t.exprs(results)+")")) + ")"
					}
				}
			}
		}

		return "(GReturn " + t.exprs(x.Results) + ")"
	case *ast.BlockStmt:
		return "(GBlock " + t.block(x.List) + ")"
	case *ast.RangeStmt:
		name := func(e ast.Expr) string {
			if id, ok := e.(*ast.Ident); ok {
				if obj := t.info.Defs[id]; obj != nil {
					return t.declare(obj)
				}

				return id.Name
			}

			return "_"
		}
		k, v := name(x.Key), name(x.Value)

		return fmt.Sprintf("(GRange %s %s %s %s)", q(k), q(v), t.expr(x.X), t.block(x.Body.List))
	case *ast.ForStmt:
		c := "(GBool true)"

		if x.Init == nil && x.Post == nil {
			if x.Cond != nil {
				c = t.expr(x.Cond)
			}

			return fmt.Sprintf("(GWhile %s %s)", c, t.block(x.Body.List))
		}

		if x.Init != nil && x.Post != nil && x.Cond != nil {
			init := t.stmt(x.Init)
			c = t.expr(x.Cond)

			return fmt.Sprintf("(GFor %s %s %s %s)", init, c, t.stmt(x.Post), t.block(x.Body.List))
		}
	case *ast.DeferStmt:
		return "(GDefer " + t.expr(x.Call) + ")"
	case *ast.GoStmt:
		return "(GGo " + t.expr(x.Call) + ")"
	case *ast.EmptyStmt:
		return "(GBlock [])"
	case *ast.BranchStmt:
		if x.Label == nil && (x.Tok == token.BREAK || x.Tok == token.CONTINUE) {
			return "(GBranch " + q(x.Tok.String()) + ")"
		}
	}

	return "(GOtherS " + q(t.src(s)) + ")"
}

func quoteAll(ids []*ast.Ident) []string {
	out := make([]string, len(ids))
	for i, id := range ids {
		out[i] = q(id.Name)
	}

	return out
}

func recvName(fd *ast.FuncDecl) string {
	if fd.Recv == nil || len(fd.Recv.List) == 0 {
		return ""
	}

	var walk func(e ast.Expr) string

	walk = func(e ast.Expr) string {
		switch x := e.(type) {
		case *ast.StarExpr:
			return walk(x.X)
		case *ast.IndexExpr:
			return walk(x.X)
		case *ast.IndexListExpr:
			return walk(x.X)
		case *ast.Ident:
			return x.Name
		}

		return "?"
	}

	return walk(fd.Recv.List[0].Type)
}

func main() {
	repo, out := "/repo", "/verif/coq/theories/Generated/Funcs.v"
	if len(os.Args) > 1 {
		repo = os.Args[1]
	}

	if len(os.Args) > 2 {
		out = os.Args[2]
	}

	if err := os.Chdir(repo); err != nil {
		panic(err)
	}

	fset := token.NewFileSet()
	matches, _ := filepath.Glob(filepath.Join(repo, "*.go"))

	var files []*ast.File

	for _, m := range matches {
		base := filepath.Base(m)
		if strings.HasSuffix(base, "_test.go") || base == "verif_hooks.go" {
			continue
		}

		if ok, err := build.Default.MatchFile(repo, base); err != nil || !ok {
			continue
		}

		f, err := parser.ParseFile(fset, m, nil, 0)
		if err != nil {
			fmt.Fprintln(os.Stderr, "parse error:", err)
			os.Exit(1)
		}

		files = append(files, f)
	}

	info := &types.Info{
		Types: map[ast.Expr]types.TypeAndValue{}, Defs: map[*ast.Ident]types.Object{}, Uses: map[*ast.Ident]types.Object{},
	}
	conf := types.Config{Importer: importer.ForCompiler(fset, "source", nil), Error: func(err error) {}}

	pkg, err := conf.Check("github.com/bool64/cache", fset, files, info)
	if err != nil && pkg == nil {
		fmt.Fprintln(os.Stderr, "type check failed:", err)
		os.Exit(1)
	}

	decls := map[types.Object]*ast.FuncDecl{}

	for _, f := range files {
		for _, d := range f.Decls {
			if fd, ok := d.(*ast.FuncDecl); ok {
				if obj := info.Defs[fd.Name]; obj != nil {
					decls[obj] = fd
				}
			}
		}
	}

	if len(os.Args) > 3 && os.Args[3] == "-list" { // print the names of all functions (to refresh known.txt)
		var names []string

		for _, fd := range decls {
			names = append(names, declName(fd))
		}

		sort.Strings(names)
		fmt.Println(strings.Join(names, "\n"))

		return
	}

	type fn struct{ name, def string }

	var fns []fn

	seen := map[string]bool{}

	for _, f := range files {
		for _, d := range f.Decls {
			fd, ok := d.(*ast.FuncDecl)
			if !ok || fd.Body == nil {
				continue
			}

			name := fd.Name.Name
			if r := recvName(fd); r != "" {
				name = r + "." + name
			}

			if !wanted[name] || seen[name] {
				continue
			}

			seen[name] = true
			t := &tr{fset: fset, info: info, pkg: pkg, locals: map[types.Object]string{}, used: map[string]int{}, decls: decls}

			var params []string

			addFields := func(fl *ast.FieldList) {
				if fl == nil {
					return
				}

				for _, fld := range fl.List {
					for _, n := range fld.Names {
						nm := n.Name
						if obj := info.Defs[n]; obj != nil {
							nm = t.declare(obj)
						}

						params = append(params, q(nm))
					}
				}
			}
			addFields(fd.Recv)
			addFields(fd.Type.Params)

			nparams := len(params)

			addFields(fd.Type.Results)

			body := t.block(fd.Body.List)

			// named results start as zero values of their types
			if fd.Type.Results != nil {
				var pre []string

				for _, fld := range fd.Type.Results.List {
					if len(fld.Names) > 0 {
						pre = append(pre, fmt.Sprintf("(GVar %s %s)", list(quoteAll(fld.Names)), q(t.src(fld.Type))))
					}
				}

				if len(pre) > 0 {
					body = "(" + list(pre) + " ++ " + body + ")"
				}
			}
			ident := "fn_" + strings.ReplaceAll(name, ".", "_")
			pos := fset.Position(fd.Pos())
			fns = append(fns, fn{name, fmt.Sprintf("(* %s:%d *)\nDefinition %s : gfunc := mkGFunc %s %s\n  %s.\n",
				filepath.Base(pos.Filename), pos.Line, ident, q(name), list(params[:nparams]), body)})
		}
	}

	sort.Slice(fns, func(i, j int) bool { return fns[i].name < fns[j].name })

	var b strings.Builder

	b.WriteString("(* GENERATED by /verif/harness/cmd/gofunc from the working tree of /repo. Do not edit. *)\n")
	b.WriteString("From Coq Require Import String ZArith List.\nFrom Cache Require Import GoIR.\nImport ListNotations.\nOpen Scope string_scope.\nOpen Scope Z_scope.\n\n")

	var names []string

	for _, f := range fns {
		b.WriteString(f.def + "\n")
		names = append(names, fmt.Sprintf("(%s, fn_%s)", q(f.name), strings.ReplaceAll(f.name, ".", "_")))
	}

	b.WriteString("Definition all_funcs : list (string * gfunc) :=\n  " + list(names) + ".\n")

	var missing []string

	for w := range wanted {
		if !seen[w] {
			missing = append(missing, w)
		}
	}

	sort.Strings(missing)
	b.WriteString("\n(* functions asked for but not present in the source: " + strings.Join(missing, ", ") + " *)\n")
	b.WriteString("Definition missing_funcs : list string := " + list(quoteStrs(missing)) + ".\n")

	if err := os.WriteFile(out, []byte(b.String()), 0o644); err != nil {
		panic(err)
	}
}

func quoteStrs(l []string) []string {
	out := make([]string, len(l))
	for i, s := range l {
		out[i] = q(s)
	}

	return out
}
