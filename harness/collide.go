package harness

import (
	"encoding/binary"
	"math/bits"
	"math/rand"

	"github.com/cespare/xxhash/v2"
)

const (
	xxP1 uint64 = 11400714785074694791
	xxP2 uint64 = 14029467366897019727
)

func xxRound(acc, input uint64) uint64 {
	acc += input * xxP2
	acc = bits.RotateLeft64(acc, 31)
	acc *= xxP1

	return acc
}

// inverse of an odd number modulo 2^64 (Newton iteration).
func inv64(a uint64) uint64 {
	x := a
	for i := 0; i < 6; i++ {
		x *= 2 - a*x
	}

	return x
}

// CollisionPair constructs two distinct 64-byte keys with the same xxhash64 (seed 0): they differ in
// the two 8-byte words of one lane; the second word is solved so that the lane accumulator coincides.
// The result is verified against the real xxhash before use.
func CollisionPair(rng *rand.Rand) ([]byte, []byte) {
	for {
		a := make([]byte, 64)
		for i := range a {
			a[i] = byte(rng.Intn(256))
		}

		lane := rng.Intn(4)
		b := append([]byte{}, a...)
		// initial accumulators with seed 0
		p1, p2 := xxP1, xxP2
		v := [4]uint64{p1 + p2, p2, 0, -p1}
		w1 := binary.LittleEndian.Uint64(a[8*lane:])
		w2 := binary.LittleEndian.Uint64(a[32+8*lane:])
		w1b := w1 ^ (1 << uint(rng.Intn(64))) ^ uint64(rng.Int63())
		a1 := xxRound(v[lane], w1)
		a1b := xxRound(v[lane], w1b)
		w2b := w2 + (a1-a1b)*inv64(xxP2)

		binary.LittleEndian.PutUint64(b[8*lane:], w1b)
		binary.LittleEndian.PutUint64(b[32+8*lane:], w2b)

		if string(a) != string(b) && xxhash.Sum64(a) == xxhash.Sum64(b) {
			return a, b
		}
	}
}
