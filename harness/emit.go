// Package harness runs bool64/cache (from /repo, built with -tags verif) on generated inputs and
// steered schedules and prints what it observed as Gallina terms for the Coq models in /verif/coq.
package harness

import (
	"encoding/json"
	"fmt"
	"math/rand"
	"os"
	"path/filepath"
	"sort"
	"strconv"
	"strings"
)

// Env holds the run parameters shared by all generators.
type Env struct {
	Out  string
	Seed int64
	Tier string
	Rng  *rand.Rand
}

// LoadEnv reads VERIF_OUT, VERIF_SEED, VERIF_TIER.
func LoadEnv(prop string) *Env {
	e := &Env{Out: os.Getenv("VERIF_OUT"), Tier: os.Getenv("VERIF_TIER")}
	if e.Out == "" {
		e.Out = filepath.Join("/verif/work", prop)
	}

	if e.Tier == "" {
		e.Tier = "quick"
	}

	if s := os.Getenv("VERIF_SEED"); s != "" {
		v, err := strconv.ParseInt(s, 10, 64)
		if err == nil {
			e.Seed = v
		}
	}

	if e.Seed == 0 {
		e.Seed = 20261001
	}

	_ = os.MkdirAll(e.Out, 0o755)
	e.Rng = rand.New(rand.NewSource(e.Seed)) //nolint:gosec

	return e
}

// Thorough reports whether the thorough tier was requested.
func (e *Env) Thorough() bool { return e.Tier == "thorough" }

// Pick returns q for the quick tier and t for the thorough tier.
func (e *Env) Pick(q, t int) int {
	if e.Thorough() {
		return t
	}

	return q
}

// CaseFile accumulates the cases of one property.
type CaseFile struct {
	Prop     string
	Imports  string
	CheckFn  string
	Cases    []string // Gallina terms
	Tags     []string // free-form class of each case (for the distribution)
	JSON     []any    // replay description of each case
	Dist     map[string]int
	Nontriv  map[string]bool // fingerprints of non-trivial cases
	Rule     string
	Extra    map[string]any
	Preamble string
}

// NewCaseFile creates a case accumulator.
func NewCaseFile(prop, imports, checkFn string) *CaseFile {
	return &CaseFile{
		Prop: prop, Imports: imports, CheckFn: checkFn,
		Dist: map[string]int{}, Nontriv: map[string]bool{}, Extra: map[string]any{},
	}
}

// Add appends one case.
func (c *CaseFile) Add(term, tag string, replay any, nontrivial bool) {
	c.Cases = append(c.Cases, term)
	c.Tags = append(c.Tags, tag)
	c.JSON = append(c.JSON, replay)
	c.Dist[tag]++

	if nontrivial {
		c.Nontriv[term] = true
	}
}

// Count adds to a named counter of the distribution.
func (c *CaseFile) Count(name string, n int) { c.Dist[name] += n }

// Write emits Cases_<prop>.v (sharded) and meta.json into dir.
func (c *CaseFile) Write(e *Env) error {
	perShard := (len(c.Cases) + 13) / 14
	if perShard < 10 {
		perShard = 10
	}

	if perShard > 400 {
		perShard = 400
	}

	shards := 0

	for start := 0; start < len(c.Cases) || shards == 0; start += perShard {
		end := start + perShard
		if end > len(c.Cases) {
			end = len(c.Cases)
		}

		var b strings.Builder

		b.WriteString(c.Imports + "\n")
		b.WriteString(c.Preamble + "\n")

		for i := start; i < end; i++ {
			fmt.Fprintf(&b, "Definition c_%d := %s.\n", i, c.Cases[i])
			fmt.Fprintf(&b, "Goal True. let r := eval vm_compute in (%s c_%d) in idtac \"CASE\" \"%d\" r. Abort.\n",
				c.CheckFn, i, i)
		}

		name := filepath.Join(e.Out, fmt.Sprintf("Cases_%s_%d.v", c.Prop, shards))
		if err := os.WriteFile(name, []byte(b.String()), 0o644); err != nil {
			return err
		}

		shards++

		if end >= len(c.Cases) {
			break
		}
	}

	keys := make([]string, 0, len(c.Dist))
	for k := range c.Dist {
		keys = append(keys, k)
	}

	sort.Strings(keys)

	meta := map[string]any{
		"property":            c.Prop,
		"seed":                e.Seed,
		"tier":                e.Tier,
		"cases":               len(c.Cases),
		"shards":              shards,
		"distinct_nontrivial": len(c.Nontriv),
		"distribution":        c.Dist,
		"rule":                c.Rule,
		"tags":                c.Tags,
		"replay":              c.JSON,
		"extra":               c.Extra,
	}

	js, err := json.MarshalIndent(meta, "", " ")
	if err != nil {
		return err
	}

	return os.WriteFile(filepath.Join(e.Out, "meta.json"), js, 0o644)
}

// ---- Gallina formatting ----

// Z formats an integer as a Z literal.
func Z(v int64) string {
	if v < 0 {
		return fmt.Sprintf("(%d)%%Z", v)
	}

	return fmt.Sprintf("%d%%Z", v)
}

// N formats a natural as an N literal.
func N(v uint64) string { return fmt.Sprintf("%d%%N", v) }

// Nat formats a small natural as a nat literal.
func Nat(v int) string { return fmt.Sprintf("%d%%nat", v) }

// Bool formats a bool.
func Bool(b bool) string {
	if b {
		return "true"
	}

	return "false"
}

// List formats a list of already formatted terms.
func List(items []string) string { return "[" + strings.Join(items, "; ") + "]" }

// Key formats a byte string as list N.
func Key(k []byte) string {
	it := make([]string, len(k))
	for i, b := range k {
		it[i] = N(uint64(b))
	}

	return "(" + List(it) + " : list N)"
}

// ZList formats []int64.
func ZList(v []int64) string {
	it := make([]string, len(v))
	for i, x := range v {
		it[i] = Z(x)
	}

	return List(it)
}

// NList formats []uint64.
func NList(v []uint64) string {
	it := make([]string, len(v))
	for i, x := range v {
		it[i] = N(x)
	}

	return List(it)
}

// Opt formats an option.
func Opt(present bool, term string) string {
	if !present {
		return "None"
	}

	return "(Some " + term + ")"
}

// Tuple formats a tuple.
func Tuple(items ...string) string { return "(" + strings.Join(items, ", ") + ")" }
