package harness

import (
	"context"
	"errors"
	"fmt"
	"math/rand"
	"sort"
	"strings"
	"sync"
	"testing"
	"testing/synctest"
	"time"

	"github.com/bool64/cache"
)

// ---- configuration ----

// FConf is a Failover configuration in the vocabulary of the model.
type FConf struct {
	Variant    string `json:"variant"` // Legacy | Generic
	SyncUpdate bool   `json:"syncUpdate"`
	SyncRead   bool   `json:"syncRead"`
	FailHard   bool   `json:"failHard"`
	MaxStale   int64  `json:"maxStaleness"`
	FailedTTL  int64  `json:"failedUpdateTTL"` // as given: 0 default 20s, -1 disabled
	UpdateTTL  int64  `json:"updateTTL"`       // as given: 0 default 1m
	Debug      bool   `json:"debug"`
	Warn       bool   `json:"warn"`
	Stat       bool   `json:"stat"`
	Backend    string `json:"backend"`
}

// EffFailedTTL is FailedUpdateTTL after defaulting.
func (c FConf) EffFailedTTL() int64 {
	if c.FailedTTL == 0 {
		return int64(20 * time.Second)
	}

	return c.FailedTTL
}

// EffUpdateTTL is UpdateTTL after defaulting.
func (c FConf) EffUpdateTTL() int64 {
	if c.UpdateTTL == 0 {
		return int64(time.Minute)
	}

	return c.UpdateTTL
}

// Coq renders the configuration as an fcfg term.
func (c FConf) Coq() string {
	return fmt.Sprintf("(mkFcfg %s %s %s %s %s %s %s %s %s %s)", c.Variant, Bool(c.SyncUpdate), Bool(c.SyncRead), Bool(c.FailHard),
		Z(c.MaxStale), Z(c.EffFailedTTL()), Z(c.EffUpdateTTL()), Bool(c.Debug), Bool(c.Warn), Bool(c.Stat))
}

const fName = "fo"

// ---- errors ----

type berr struct { // builder error; wraps the error of the build context when that context is already done
	n     int64
	cause error
}

func (e berr) Error() string { return fmt.Sprintf("builder error %d", e.n) }
func (e berr) Unwrap() error { return e.cause }

type ferr struct{ n int64 } // injected backend fault

func (e ferr) Error() string { return fmt.Sprintf("backend fault %d", e.n) }

// ErrTerm renders an error returned by Get as option err.
func ErrTerm(err error) (string, string) {
	if err == nil {
		return "None", "nil"
	}

	var (
		b berr
		f ferr
	)

	switch {
	case errors.As(err, &f):
		if strings.HasPrefix(err.Error(), "failed to refresh expired value") {
			return fmt.Sprintf("(Some (EWrapped %s))", Z(f.n)), fmt.Sprintf("wrapped(%d)", f.n)
		}

		return fmt.Sprintf("(Some (EOther %s))", Z(f.n)), fmt.Sprintf("fault(%d)", f.n)
	case errors.As(err, &b):
		return fmt.Sprintf("(Some (EOther %s))", Z(b.n)), fmt.Sprintf("builder(%d)", b.n)
	case errors.Is(err, cache.ErrNotFound):
		return "(Some ENotFound)", "notfound"
	case errors.Is(err, cache.ErrExpired):
		return "(Some (EExpired 0 0))", "expired"
	}

	return "(Some (EOther 999999))", "other:" + err.Error()
}

// ---- events ----

// FEv is an observable event of a Get or of its background build.
type FEv struct {
	Tid  int    `json:"tid"`
	Kind string `json:"kind"` // read write bstart bend stat log return
	Key  []byte `json:"key,omitempty"`
	Coq  string `json:"-"`
	Text string `json:"text"`
	Bg   bool   `json:"bg,omitempty"`
}

type tidKey struct{}

type parked struct {
	point string
	ch    chan struct{}
}

// BuildPlan scripts one builder invocation.
type BuildPlan struct {
	Ok  bool    `json:"ok"`
	Val int64   `json:"val"`
	Err int64   `json:"err"`
	Upd []int64 `json:"upd,omitempty"`
	// CancelMid: the caller's context is cancelled while the builder runs (between its entry and exit)
	CancelMid bool `json:"cancelMid,omitempty"`
}

// FEngine steers Gets on one Failover instance inside a synctest bubble.
type FEngine struct {
	t    *testing.T
	conf FConf
	rng  *rand.Rand

	mu        sync.Mutex
	parked    map[int]*parked
	trace     []FEv
	returned  map[int]bool
	results   map[int]string
	cancels   map[int]context.CancelFunc
	cancelled map[int]bool      // per tid: its CancelFunc has been called
	deadlines map[int]int64     // per tid: absolute deadline of the caller's context (0 = none)
	plans     map[int]BuildPlan // per tid: outcome of its (single) builder invocation
	faults    map[int]int64     // per tid: fault to inject at the call-out being released (0 = none)
	ctxObs    []map[string]any  // what builders saw of their context (C06)
	nextTok   int64
	nextErr   int64
	nextFlt   int64
	builds    map[int]int // builder invocations per tid
	keys      map[int][]byte
	tids      []int
	mark      int

	inner Backend
	stats *Stats

	legacy  *cache.Failover
	generic *cache.FailoverOf[int]

	PostParks bool // also park right after every backend call-out has returned

	Labels  []string // Gallina macro labels
	Replay  []any
	PcStats map[string]int
}

func (r *FEngine) tidOf(ctx context.Context) (int, bool) {
	v, ok := ctx.Value(tidKey{}).(int)

	return v, ok
}

// isBg reports whether ctx belongs to the background build goroutine (a detached context).
func isBg(ctx context.Context) bool {
	return strings.Contains(fmt.Sprintf("%T", ctx), "detachedContext")
}

func (r *FEngine) record(ctx context.Context, ev FEv) {
	r.mu.Lock()
	ev.Bg = isBg(ctx)
	if ev.Key == nil {
		ev.Key = r.keys[ev.Tid]
	}
	r.trace = append(r.trace, ev)
	r.mu.Unlock()
}

func (r *FEngine) park(tid int, point string) {
	ch := make(chan struct{})

	r.mu.Lock()
	r.parked[tid] = &parked{point: point, ch: ch}
	r.mu.Unlock()

	<-ch
}

func (r *FEngine) takeFault(tid int) int64 {
	r.mu.Lock()
	defer r.mu.Unlock()

	f := r.faults[tid]
	delete(r.faults, tid)

	return f
}

// ---- wrapping backend ----

func rresTerm(res Res) (string, string) {
	switch res.Kind {
	case "val":
		return "(RHit " + Z(res.V) + ")", fmt.Sprintf("hit(%d)", res.V)
	case "notfound":
		return "RMiss", "miss"
	case "expired":
		return fmt.Sprintf("(RExp %s %s)", Z(res.V), Z(res.At)), fmt.Sprintf("expired(%d@%d)", res.V, res.At)
	}

	return "(RFault 999999)", "other:" + res.Msg
}

type wrapLegacy struct{ r *FEngine }

func (w wrapLegacy) Read(ctx context.Context, key []byte) (interface{}, error) {
	raw := w.r.inner.Raw().(cache.ReadWriter)

	tid, ok := w.r.tidOf(ctx)
	if !ok {
		return raw.Read(ctx, key)
	}

	k := append([]byte{}, key...)
	w.r.park(tid, "read")

	if f := w.r.takeFault(tid); f != 0 {
		w.r.record(ctx, FEv{Tid: tid, Kind: "read", Key: k, Coq: fmt.Sprintf("(RFault %s)", Z(f)), Text: fmt.Sprintf("fault(%d)", f)})

		if w.r.PostParks {
			w.r.park(tid, "rdone")
		}

		return nil, ferr{f}
	}

	v, err := raw.Read(ctx, key)
	c, txt := rresTerm(w.r.inner.(*legacyBackend).resOf(v, err))
	w.r.record(ctx, FEv{Tid: tid, Kind: "read", Key: k, Coq: c, Text: txt})

	if err != nil && w.r.PostParks {
		w.r.park(tid, "rdone") // the call-out has returned; the goroutine may be descheduled right here
	}

	return v, err
}

func (w wrapLegacy) Write(ctx context.Context, key []byte, v interface{}) error {
	raw := w.r.inner.Raw().(cache.ReadWriter)

	tid, ok := w.r.tidOf(ctx)
	if !ok {
		return raw.Write(ctx, key, v)
	}

	k := append([]byte{}, key...)
	w.r.park(tid, "write")

	return w.r.doWrite(ctx, tid, k, tokOf(v), func() error { return raw.Write(ctx, key, v) })
}

func (r *FEngine) doWrite(ctx context.Context, tid int, k []byte, tok int64, do func() error) error {
	ttl := int64(cache.TTL(ctx))

	if f := r.takeFault(tid); f != 0 {
		r.record(ctx, FEv{Tid: tid, Kind: "write", Key: k, Coq: fmt.Sprintf("%s %s (Some~%s)", Z(tok), Z(ttl), Z(f)),
			Text: fmt.Sprintf("write(%d,ttl=%d)=fault(%d)", tok, ttl, f)})

		if r.PostParks {
			r.park(tid, "wdone")
		}

		return ferr{f}
	}

	err := do()
	r.record(ctx, FEv{Tid: tid, Kind: "write", Key: k, Coq: fmt.Sprintf("%s %s None", Z(tok), Z(ttl)),
		Text: fmt.Sprintf("write(%d,ttl=%d)=ok", tok, ttl)})

	if r.PostParks {
		r.park(tid, "wdone")
	}

	return err
}

func (b *legacyBackend) resOf(v interface{}, err error) Res {
	return readRes(tokOf(v), err, func() (int64, int64, bool) {
		var e cache.ErrWithExpiredItem
		if errors.As(err, &e) {
			return tokOf(e.Value()), e.ExpiredAt().UnixNano(), true
		}

		return 0, 0, false
	})
}

type wrapGeneric struct{ r *FEngine }

func (w wrapGeneric) Read(ctx context.Context, key []byte) (int, error) {
	raw := w.r.inner.Raw().(*cache.ShardedMapOf[int])

	tid, ok := w.r.tidOf(ctx)
	if !ok {
		return raw.Read(ctx, key)
	}

	k := append([]byte{}, key...)
	w.r.park(tid, "read")

	if f := w.r.takeFault(tid); f != 0 {
		w.r.record(ctx, FEv{Tid: tid, Kind: "read", Key: k, Coq: fmt.Sprintf("(RFault %s)", Z(f)), Text: fmt.Sprintf("fault(%d)", f)})

		if w.r.PostParks {
			w.r.park(tid, "rdone")
		}

		return 0, ferr{f}
	}

	v, err := raw.Read(ctx, key)
	res := readRes(int64(v), err, func() (int64, int64, bool) {
		var e cache.ErrWithExpiredItemOf[int]
		if errors.As(err, &e) {
			return int64(e.Value()), e.ExpiredAt().UnixNano(), true
		}

		return 0, 0, false
	})
	c, txt := rresTerm(res)
	w.r.record(ctx, FEv{Tid: tid, Kind: "read", Key: k, Coq: c, Text: txt})

	if err != nil && w.r.PostParks {
		w.r.park(tid, "rdone")
	}

	return v, err
}

func (w wrapGeneric) Write(ctx context.Context, key []byte, v int) error {
	raw := w.r.inner.Raw().(*cache.ShardedMapOf[int])

	tid, ok := w.r.tidOf(ctx)
	if !ok {
		return raw.Write(ctx, key, v)
	}

	k := append([]byte{}, key...)
	w.r.park(tid, "write")

	return w.r.doWrite(ctx, tid, k, int64(v), func() error { return raw.Write(ctx, key, v) })
}

// ---- logger and stats of the frontend ----

var logPoints = map[string]string{
	"waiting for cache value":                    "log1",
	"refreshing expired value":                   "log2",
	"building cache value":                       "log3",
	"failed to update stale cache value":         "log4",
	"failed to update cache value in background": "log4",
}

func (r *FEngine) logCall(ctx context.Context, msg string) {
	p, ok := logPoints[msg]
	if !ok {
		return // a backend / failure-cache message, possibly under a shard lock: never park
	}

	tid, ok := r.tidOf(ctx)
	if !ok {
		return
	}

	r.park(tid, p)
	r.record(ctx, FEv{Tid: tid, Kind: "log", Coq: N(uint64(p[3] - '0')), Text: p})
}

type logErrOnly struct{ r *FEngine }

func (l logErrOnly) Error(ctx context.Context, msg string, kv ...interface{}) {}

type logDebug struct{ logErrOnly }

func (l logDebug) Debug(ctx context.Context, msg string, kv ...interface{}) { l.r.logCall(ctx, msg) }

type logWarn struct{ logErrOnly }

func (l logWarn) Warn(ctx context.Context, msg string, kv ...interface{}) { l.r.logCall(ctx, msg) }

type logBoth struct{ logErrOnly }

func (l logBoth) Debug(ctx context.Context, msg string, kv ...interface{}) { l.r.logCall(ctx, msg) }
func (l logBoth) Warn(ctx context.Context, msg string, kv ...interface{})  { l.r.logCall(ctx, msg) }

type fStats struct{ r *FEngine }

func (s fStats) Add(ctx context.Context, name string, inc float64, lv ...string) {
	s.r.stats.Add(ctx, name, inc, lv...)

	if statKey(name, lv) != name+"@"+fName {
		return // metrics of the backend or of the failure cache (may be under a shard lock)
	}

	tid, ok := s.r.tidOf(ctx)
	if !ok {
		return
	}

	m := map[string]string{cache.MetricRefreshed: "MRefreshed", cache.MetricFailed: "MFailed", cache.MetricBuild: "MBuild",
		cache.MetricChanged: "MChanged"}[name]
	if m == "" {
		return
	}

	s.r.park(tid, "stat:"+m)
	s.r.record(ctx, FEv{Tid: tid, Kind: "stat", Coq: m, Text: m})
}

func (s fStats) Set(ctx context.Context, name string, v float64, lv ...string) {}

// ---- builder ----

func (r *FEngine) build(ctx context.Context) (int64, error) {
	tid, _ := r.tidOf(ctx)

	r.mu.Lock()
	r.builds[tid]++
	plan := r.plans[tid]
	r.mu.Unlock()

	_, hasDeadline := ctx.Deadline()
	obs := map[string]any{"tid": tid, "bg": isBg(ctx), "errAtEntry": fmt.Sprint(ctx.Err()), "doneNil": ctx.Done() == nil, "deadline": hasDeadline,
		"ttlAtEntry": int64(cache.TTL(ctx)), "skipRead": cache.SkipRead(ctx), "nowAtEntry": time.Now().UnixNano(), "cancelledAtEntry": r.isCancelled(tid)}

	r.record(ctx, FEv{Tid: tid, Kind: "bstart", Text: "build-start"})
	r.park(tid, "bentry")

	for _, u := range plan.Upd {
		cache.WithTTL(ctx, time.Duration(u), true)
	}

	if plan.CancelMid {
		// the caller goes away in the middle of the build
		r.mu.Lock()
		c := r.cancels[tid]
		r.mu.Unlock()

		if c != nil {
			r.markCancelled(tid)
			c()
		}
	}

	r.park(tid, "bexit")

	obs["errAtExit"] = fmt.Sprint(ctx.Err())
	obs["valueVisible"] = ctx.Value(tidKey{}) != nil
	obs["nowAtExit"] = time.Now().UnixNano()
	obs["cancelledAtExit"] = r.isCancelled(tid)

	r.mu.Lock()
	r.ctxObs = append(r.ctxObs, obs)
	r.mu.Unlock()

	if plan.Ok {
		r.record(ctx, FEv{Tid: tid, Kind: "bend", Coq: "(inl " + Z(plan.Val) + ")", Text: fmt.Sprintf("build-end ok(%d)", plan.Val)})

		return plan.Val, nil
	}

	r.record(ctx, FEv{Tid: tid, Kind: "bend", Coq: "(inr " + Z(plan.Err) + ")", Text: fmt.Sprintf("build-end err(%d)", plan.Err)})

	// a builder interrupted by its context reports that context's error (wrapped), as real builders do
	return 0, berr{n: plan.Err, cause: ctx.Err()}
}

func (r *FEngine) markCancelled(tid int) {
	r.mu.Lock()
	r.cancelled[tid] = true
	r.mu.Unlock()
}

func (r *FEngine) isCancelled(tid int) bool {
	r.mu.Lock()
	defer r.mu.Unlock()

	return r.cancelled[tid]
}

// CtxObsCoq renders one builder-context observation as a ctxobs term of Ctx.v. The caller's context is
// Background <- WithValue(tid) <- [WithCancel] <- [WithTimeout] <- [WithTTL] <- [WithSkipRead] (innermost last here,
// first in the term).
func CtxObsCoq(o map[string]any, g GetSpec, deadlineAt int64) string {
	var layers []string

	if g.Skip {
		layers = append(layers, "LValue 3 1")
	}

	if g.HasCell {
		layers = append(layers, "LValue 2 1")
	}

	if deadlineAt != 0 {
		layers = append(layers, fmt.Sprintf("LDeadline %s", Z(deadlineAt)))
	}

	if g.Cancel || g.CancelBefore || g.Plan.CancelMid {
		layers = append(layers, fmt.Sprintf("LCancel %s", N(uint64(g.Tid))))
	}

	layers = append(layers, fmt.Sprintf("LValue 1 %s", N(uint64(g.Tid))))

	cset := func(b bool) string {
		if b {
			return List([]string{N(uint64(g.Tid))})
		}

		return "[]"
	}

	return fmt.Sprintf("(mkCtxObs %s %s %s %s %s %s %s %s %s %s 1 %s)", Bool(o["bg"].(bool)), List(layers),
		cset(o["cancelledAtEntry"].(bool)), Z(o["nowAtEntry"].(int64)), cset(o["cancelledAtExit"].(bool)), Z(o["nowAtExit"].(int64)),
		Bool(o["errAtEntry"] == "<nil>"), Bool(o["errAtExit"] == "<nil>"), Bool(o["doneNil"].(bool)), Bool(o["deadline"].(bool)),
		Bool(o["valueVisible"].(bool)))
}

// ---- engine ----

// NewFEngine creates the Failover under test. Must be called inside a synctest bubble.
func NewFEngine(t *testing.T, rng *rand.Rand, conf FConf) *FEngine {
	r := &FEngine{
		t: t, conf: conf, rng: rng, parked: map[int]*parked{}, returned: map[int]bool{}, results: map[int]string{},
		plans: map[int]BuildPlan{}, cancels: map[int]context.CancelFunc{}, cancelled: map[int]bool{}, deadlines: map[int]int64{}, faults: map[int]int64{}, builds: map[int]int{}, keys: map[int][]byte{}, stats: NewStats(), PcStats: map[string]int{},
		nextTok: 100, nextErr: 1, nextFlt: 1000,
	}

	bconf := BConf{TTL: int64(time.Hour), Jitter: -1, Name: "be"} // built values stay fresh for 1h
	r.inner = NewBackend(conf.Backend, bconf.Config(r.stats))

	var logger cache.Logger

	switch {
	case conf.Debug && conf.Warn:
		logger = logBoth{logErrOnly{r}}
	case conf.Debug:
		logger = logDebug{logErrOnly{r}}
	case conf.Warn:
		logger = logWarn{logErrOnly{r}}
	}

	var st cache.StatsTracker
	if conf.Stat {
		st = fStats{r}
	}

	if conf.Variant == "Legacy" {
		r.legacy = cache.NewFailover(func(cfg *cache.FailoverConfig) {
			cfg.Name, cfg.Backend = fName, wrapLegacy{r}
			cfg.SyncUpdate, cfg.SyncRead, cfg.FailHard = conf.SyncUpdate, conf.SyncRead, conf.FailHard
			cfg.MaxStaleness, cfg.FailedUpdateTTL, cfg.UpdateTTL = time.Duration(conf.MaxStale), time.Duration(conf.FailedTTL), time.Duration(conf.UpdateTTL)
			cfg.Logger, cfg.Stats = logger, st
		})
	} else {
		r.generic = cache.NewFailoverOf[int](func(cfg *cache.FailoverConfigOf[int]) {
			cfg.Name, cfg.Backend = fName, wrapGeneric{r}
			cfg.SyncUpdate, cfg.SyncRead, cfg.FailHard = conf.SyncUpdate, conf.SyncRead, conf.FailHard
			cfg.MaxStaleness, cfg.FailedUpdateTTL, cfg.UpdateTTL = time.Duration(conf.MaxStale), time.Duration(conf.FailedTTL), time.Duration(conf.UpdateTTL)
			cfg.Logger, cfg.Stats = logger, st
		})
	}

	return r
}

// Close stops the janitors.
func (r *FEngine) Close() {
	r.inner.Close()

	if r.legacy != nil {
		r.legacy.VerifClose()
	} else {
		r.generic.VerifClose()
	}
}

// KeyLocks returns the number of key locks held.
func (r *FEngine) KeyLocks() int {
	if r.legacy != nil {
		return r.legacy.VerifKeyLocks()
	}

	return r.generic.VerifKeyLocks()
}

// ExpireAll expires every entry of the backend directly (somebody else using the backend).
func (r *FEngine) ExpireAll() { r.inner.ExpireAll(context.Background()) }

// Seed stores an entry directly in the backend (not through the frontend).
func (r *FEngine) Seed(key []byte, v int64, ttl time.Duration) {
	_ = r.inner.Write(cache.WithTTL(context.Background(), ttl, false), key, v)
}

// errExpiry reads the expiry of the failure cache entry of key (0 if absent or never).
func (r *FEngine) errExpiry(key []byte) int64 {
	var out int64

	if r.legacy != nil {
		if r.legacy.Errors == nil {
			return 0
		}

		_, _ = r.legacy.Errors.Walk(func(e cache.Entry) error {
			if string(e.Key()) == string(key) {
				out = e.ExpireAt().UnixNano()
				if e.ExpireAt().Unix() == 0 {
					out = 0
				}
			}

			return nil
		})

		return out
	}

	if r.generic.Errors == nil {
		return 0
	}

	_, _ = r.generic.Errors.Walk(func(e cache.EntryOf[error]) error {
		if string(e.Key()) == string(key) {
			out = expiryOf(e.ExpireAt())
		}

		return nil
	})

	return out
}

// GetSpec describes one Get call.
type GetSpec struct {
	Tid             int       `json:"tid"`
	Key             []byte    `json:"key"`
	Skip            bool      `json:"skipRead"`
	Cell            int64     `json:"ctxTTL"` // TTL carried by the caller's context
	HasCell         bool      `json:"hasTTLCell"`
	Plan            BuildPlan `json:"plan"`
	SleepBefore     int64     `json:"sleepBefore,omitempty"`
	ExpireAllBefore bool      `json:"expireAllBefore,omitempty"` // the backend's ExpireAll is called right before this Get
	Cancel          bool      `json:"cancelAfterReturn"`
	CancelBefore    bool      `json:"cancelBeforeCall,omitempty"` // the caller's context is already cancelled when Get is called
	Deadline        int64     `json:"deadlineIn,omitempty"`       // caller context carries a deadline this far in the future
	Rewrite         bool      `json:"rewriteKeyAfterReturn"`
}

type status struct {
	Tid   int    `json:"tid"`
	State string `json:"state"` // a park point, "waiting", "done"
}

func (r *FEngine) snapshot(tids []int) (string, []status) {
	r.mu.Lock()
	defer r.mu.Unlock()

	var (
		items []string
		out   []status
	)

	for _, tid := range tids {
		st := "waiting"

		if p, ok := r.parked[tid]; ok {
			st = p.point
		} else if r.returned[tid] {
			st = "done"
		}

		mt := tid
		if r.returned[tid] {
			// the foreground Get has returned: a park point now belongs to the background build
			if st != "done" {
				out = append(out, status{Tid: tid, State: "done"})
				items = append(items, Tuple(N(uint64(tid)), "SDone"))
				mt = tid + 1000
			}
		}

		out = append(out, status{Tid: mt, State: st})
		items = append(items, Tuple(N(uint64(mt)), statusCoq(st)))
	}

	return List(items), out
}

func statusCoq(st string) string {
	switch st {
	case "done":
		return "SDone"
	case "waiting":
		return "SWaiting"
	case "read":
		return "SRead"
	case "write":
		return "SWrite"
	case "bentry":
		return "SBEntry"
	case "bexit":
		return "SBExit"
	case "rdone", "wdone":
		return "SPost"
	case "log1", "log2", "log3", "log4":
		return "(SLog " + N(uint64(st[3]-'0')) + ")"
	}

	if strings.HasPrefix(st, "stat:") {
		return "(SStat " + st[5:] + ")"
	}

	return "SDone"
}

func (r *FEngine) evCoq(evs []FEv) string {
	it := make([]string, 0, len(evs))

	for _, e := range evs {
		t := e.Tid
		if e.Bg {
			t += 1000
		}

		tn := N(uint64(t))

		switch e.Kind {
		case "read":
			it = append(it, fmt.Sprintf("(FRead %s %s %s)", tn, Key(e.Key), e.Coq))
		case "write":
			parts := strings.Split(e.Coq, " ")
			it = append(it, fmt.Sprintf("(FWrite %s %s %s %s false %s)", tn, Key(e.Key), parts[0], parts[1], strings.ReplaceAll(parts[2], "~", " ")))
		case "bstart":
			it = append(it, fmt.Sprintf("(FBuildStart %s %s)", tn, Key(e.Key)))
		case "bend":
			it = append(it, fmt.Sprintf("(FBuildEnd %s %s %s)", tn, Key(e.Key), e.Coq))
		case "stat":
			it = append(it, fmt.Sprintf("(FStat %s %s)", tn, e.Coq))
		case "log":
			it = append(it, fmt.Sprintf("(FLog %s %s)", tn, e.Coq))
		case "return":
			it = append(it, fmt.Sprintf("(FReturn %s %s %s)", tn, Key(e.Key), e.Coq))
		}
	}

	return List(it)
}

// Run executes a schedule: [gets] arrive at the positions chosen by [policy], parked threads are
// released one at a time; ends when everything has finished. Returns the list of tids.
type Policy struct {
	FaultProb float64
	SleepProb float64
	Sleeps    []int64
	// ArriveEarly: probability that a pending Get arrives instead of releasing a parked thread
	ArriveEarly float64
	MaxSteps    int
	// HoldBuilders: probability per step that goroutines parked inside the builder are passed over
	HoldBuilders float64
}

func (r *FEngine) start(g GetSpec, tids *[]int) {
	ctx := context.WithValue(context.Background(), tidKey{}, g.Tid)

	var cancel context.CancelFunc

	if g.Cancel || g.CancelBefore || g.Plan.CancelMid {
		ctx, cancel = context.WithCancel(ctx)

		if g.CancelBefore {
			r.markCancelled(g.Tid)
			cancel()
		}
	}

	if g.Deadline > 0 {
		var c2 context.CancelFunc

		ctx, c2 = context.WithTimeout(ctx, time.Duration(g.Deadline))
		_ = c2

		r.mu.Lock()
		r.deadlines[g.Tid] = time.Now().UnixNano() + g.Deadline
		r.mu.Unlock()
	}

	if g.HasCell {
		ctx = cache.WithTTL(ctx, time.Duration(g.Cell), false)
	}

	if g.Skip {
		ctx = cache.WithSkipRead(ctx)
	}

	r.mu.Lock()
	r.plans[g.Tid] = g.Plan
	r.cancels[g.Tid] = cancel
	r.keys[g.Tid] = append([]byte{}, g.Key...)
	r.mu.Unlock()

	*tids = append(*tids, g.Tid)
	buf := append([]byte{}, g.Key...)

	go func() {
		var (
			v   int64
			err error
		)

		if r.legacy != nil {
			var x interface{}

			x, err = r.legacy.Get(ctx, buf, func(ctx context.Context) (interface{}, error) {
				tok, e := r.build(ctx)
				if e != nil {
					return nil, e
				}

				return valOf(tok), nil
			})
			v = tokOf(x)
		} else {
			var x int

			x, err = r.generic.Get(ctx, buf, func(ctx context.Context) (int, error) {
				tok, e := r.build(ctx)

				return int(tok), e
			})
			v = int64(x)
		}

		// caller behaviour after return
		if g.Rewrite {
			for i := range buf {
				buf[i] ^= 0x77
			}
		}

		if cancel != nil {
			r.markCancelled(g.Tid)
			cancel()
		}

		ec, et := ErrTerm(err)

		r.mu.Lock()
		r.trace = append(r.trace, FEv{Tid: g.Tid, Kind: "return", Key: r.keys[g.Tid], Coq: fmt.Sprintf("%s %s", Z(v), ec), Text: fmt.Sprintf("return(%d,%s)", v, et)})
		r.returned[g.Tid] = true
		r.results[g.Tid] = fmt.Sprintf("(%d,%s)", v, et)
		r.mu.Unlock()
	}()
}

func cellCoq(g GetSpec) string { return Opt(g.HasCell, Z(g.Cell)) }

// Exec runs the gets under the policy and records macro labels.
func (r *FEngine) Exec(gets []GetSpec, pol Policy) []int {
	tids := r.tids

	defer func() { r.tids = tids }()

	pending := append([]GetSpec{}, gets...)
	keyOf := map[int][]byte{}

	for _, g := range gets {
		keyOf[g.Tid] = g.Key
	}

	emit := func(head string, replay map[string]any) {
		synctest.Wait()

		r.mu.Lock()
		evs := append([]FEv{}, r.trace[r.mark:]...)
		r.mark = len(r.trace)
		r.mu.Unlock()

		stc, sts := r.snapshot(tids)
		r.Labels = append(r.Labels, fmt.Sprintf("(%s %s %s)", head, r.evCoq(evs), stc))
		replay["events"] = evs
		replay["status"] = sts
		r.Replay = append(r.Replay, replay)

		for _, s := range sts {
			r.PcStats[s.State]++
		}
	}

	for step := 0; ; step++ {
		r.mu.Lock()
		var ready []int
		for tid := range r.parked {
			ready = append(ready, tid)
		}
		r.mu.Unlock()
		sort.Ints(ready)

		if len(ready) == 0 && len(pending) == 0 {
			break
		}

		if pol.MaxSteps > 0 && step > pol.MaxSteps {
			r.t.Fatalf("schedule did not finish in %d steps", pol.MaxSteps)
		}

		if len(pol.Sleeps) > 0 && r.rng.Float64() < pol.SleepProb {
			time.Sleep(time.Duration(pol.Sleeps[r.rng.Intn(len(pol.Sleeps))]))
		}

		if len(pending) > 0 && (len(ready) == 0 || r.rng.Float64() < pol.ArriveEarly) {
			g := pending[0]
			pending = pending[1:]

			if g.SleepBefore > 0 {
				time.Sleep(time.Duration(g.SleepBefore))
			}

			if g.ExpireAllBefore {
				time.Sleep(1) // ExpireAll stamps "now": make sure it lies in the past for the Get
				r.ExpireAll()
				time.Sleep(1)
			}

			r.start(g, &tids)
			emit(fmt.Sprintf("MSpawn %s %s %s %s %s", N(uint64(g.Tid)), Key(g.Key), Bool(g.Skip), cellCoq(g), Z(time.Now().UnixNano())),
				map[string]any{"action": "spawn", "get": g})

			continue
		}

		tid := ready[r.rng.Intn(len(ready))]

		// keep builders inside their build for a while: with probability HoldBuilders a goroutine parked inside the
		// builder is passed over when somebody else can move (longer builds = more chances for a second build, a waiter or
		// a new owner of the same key to meet one in flight)
		if pol.HoldBuilders > 0 && r.rng.Float64() < pol.HoldBuilders {
			var others []int

			r.mu.Lock()
			for _, t := range ready {
				if pt := r.parked[t].point; pt != "bentry" && pt != "bexit" {
					others = append(others, t)
				}
			}
			r.mu.Unlock()

			if len(others) > 0 {
				tid = others[r.rng.Intn(len(others))]
			} else if len(pending) > 0 {
				// everybody is inside a builder: let the next Get arrive instead
				g := pending[0]
				pending = pending[1:]

				r.start(g, &tids)
				emit(fmt.Sprintf("MSpawn %s %s %s %s %s", N(uint64(g.Tid)), Key(g.Key), Bool(g.Skip), cellCoq(g), Z(time.Now().UnixNano())),
					map[string]any{"action": "spawn", "get": g})

				continue
			}
		}

		r.mu.Lock()
		p := r.parked[tid]
		delete(r.parked, tid)

		var fault int64

		if (p.point == "read" || p.point == "write") && r.rng.Float64() < pol.FaultProb {
			r.nextFlt++
			fault = r.nextFlt
			r.faults[tid] = fault
		}

		bg := r.returned[tid]
		plan := r.plans[tid]
		r.mu.Unlock()

		now := time.Now().UnixNano()
		close(p.ch)
		synctest.Wait()

		mt := tid
		if bg {
			mt += 1000
		}

		upd := ZList(plan.Upd)
		built := "(inl " + Z(plan.Val) + ")"

		if !plan.Ok {
			built = "(inr " + Z(plan.Err) + ")"
		}

		wr := "None"
		rd := "RMiss"

		// the answers of the call-out just completed are in the trace
		r.mu.Lock()
		for _, e := range r.trace[r.mark:] {
			if e.Tid == tid && e.Kind == "read" && p.point == "read" {
				rd = e.Coq
			}
		}
		r.mu.Unlock()

		if fault != 0 && p.point == "write" {
			wr = "(Some " + Z(fault) + ")"
		}

		orc := fmt.Sprintf("(mkOrc %s %s %s %s %s %s)", Z(now), rd, wr, built, upd, Z(r.errExpiry(keyOf[tid])))
		head := "MRun"

		r.mu.Lock()
		if np, ok := r.parked[tid]; ok && (np.point == "rdone" || np.point == "wdone") {
			head = "MRun1" // exactly the call-out, then parked again right after it
		}
		r.mu.Unlock()

		if p.point == "rdone" || p.point == "wdone" {
			head = "MCont"
		}

		emit(fmt.Sprintf("%s %s %s", head, N(uint64(mt)), orc), map[string]any{"action": "release", "tid": mt, "point": p.point, "fault": fault, "now": now})
	}

	return tids
}

func expiryOf(t time.Time) int64 {
	if t.Unix() == 0 && t.Nanosecond() == 0 {
		return 0
	}

	return t.UnixNano()
}
