package harness

import (
	"fmt"
	"math/rand"
	"testing"
	"testing/synctest"
	"time"
)

// FOpts selects what a generated Failover scenario may contain.
type FOpts struct {
	MinGets, MaxGets int
	Keys             int
	Collide          bool // sometimes make the first two keys an xxhash64 collision pair
	FaultProb        float64
	Cells            bool // contexts with TTL cells and builder TTL updates
	Skip             bool // SkipRead contexts
	Hostile          bool // cancel context / rewrite key buffer right after return
	FollowUp         bool // after quiescence: expire everything and Get every key again (C04)
	ForceSyncRead    *bool
	FailRate         float64
	InitStates       []string // subset of absent fresh stale toostale
	FixedConf        *FConf
	NoLongSleeps     bool
	Prelude          bool // sometimes start from "a build of the first key has just failed": failure cached, value (if any) stale again
}

// FOut is the outcome of one scenario.
type FOut struct {
	Term      string
	Tag       string
	Replay    map[string]any
	Nontriv   bool
	PcStats   map[string]int
	CtxObs    []map[string]any
	Deadlines map[int]int64
	Conf      FConf
}

func randFConf(rng *rand.Rand) FConf {
	variant := []string{"Legacy", "Generic"}[rng.Intn(2)]
	backend := FlShardedOf

	if variant == "Legacy" {
		backend = []string{FlSharded, FlSyncM}[rng.Intn(2)]
	}

	return FConf{
		Variant: variant, Backend: backend,
		SyncUpdate: rng.Intn(2) == 0, SyncRead: rng.Intn(2) == 0, FailHard: rng.Intn(2) == 0,
		MaxStale:  []int64{0, int64(time.Minute)}[rng.Intn(2)],
		FailedTTL: []int64{0, -1, int64(5 * time.Second)}[rng.Intn(3)],
		UpdateTTL: []int64{0, int64(10 * time.Second)}[rng.Intn(2)],
		Debug:     rng.Intn(3) == 0, Warn: rng.Intn(3) == 0, Stat: rng.Intn(2) == 0,
	}
}

// GenFailover generates and runs one scenario.
func GenFailover(t *testing.T, rng *rand.Rand, o FOpts) FOut {
	conf := randFConf(rng)
	if o.FixedConf != nil {
		conf = *o.FixedConf
	}

	if o.ForceSyncRead != nil {
		conf.SyncRead = *o.ForceSyncRead
	}

	states := o.InitStates
	if len(states) == 0 {
		states = []string{"absent", "fresh", "stale", "toostale"}
	}

	nk := 1 + rng.Intn(o.Keys)
	keys := make([][]byte, nk)
	init := make([]string, nk)

	for i := range keys {
		keys[i] = []byte(fmt.Sprintf("key%d", i+1))
		init[i] = states[rng.Intn(len(states))]
	}

	collide := false

	if o.Collide && nk >= 2 && rng.Intn(2) == 0 {
		// two distinct keys with the same 64-bit hash: a collision may cost a miss, never a mix-up
		keys[0], keys[1] = CollisionPair(rng)
		collide = true
	}

	ng := o.MinGets + rng.Intn(o.MaxGets-o.MinGets+1)

	var (
		out   FOut
		gets  []GetSpec
		pre   []GetSpec
		locks int
	)

	synctest.Test(t, func(t *testing.T) {
		r := NewFEngine(t, rng, conf)
		r.PostParks = rng.Intn(3) != 0

		defer r.Close()

		// initial backend content, written directly (not through the frontend)
		for i, k := range keys {
			switch init[i] {
			case "fresh":
				r.Seed(k, int64(10+i), time.Hour)
			case "stale":
				r.Seed(k, int64(10+i), 10*time.Second)
			case "toostale":
				r.Seed(k, int64(10+i), time.Second)
			}
		}

		// stale: expired 20s ago; too stale: expired ~30s ago, beyond MaxStaleness only if it is set below that
		time.Sleep(30 * time.Second)

		if conf.MaxStale != 0 {
			time.Sleep(2 * time.Duration(conf.MaxStale))
		}

		tok, errn := int64(100), int64(1)
		prelude := o.Prelude && !collide && rng.Intn(3) == 0 // (cached failures of colliding keys evict each other, see below)

		if prelude {
			// one lone Get whose build fails, run to completion: the failure is cached (unless FailedUpdateTTL = -1);
			// the first Get on that key below is preceded by ExpireAll, so a value that was served or re-stored is stale again
			pg := GetSpec{Tid: 90, Key: keys[0], Plan: BuildPlan{Ok: false, Err: 900}}
			r.Exec([]GetSpec{pg}, Policy{MaxSteps: 2000})
			pre = append(pre, pg)
		}

		for i := 0; i < ng; i++ {
			g := GetSpec{Tid: i + 1, Key: keys[rng.Intn(nk)]}

			if prelude && string(g.Key) == string(keys[0]) {
				g.ExpireAllBefore = true
				prelude = false
			}
			tok++
			errn++
			g.Plan = BuildPlan{Ok: rng.Float64() >= o.FailRate, Val: tok, Err: errn}

			if collide && string(g.Key) == string(keys[0]) {
				// The failure cache is a ShardedMap too: cached failures of two colliding keys would evict each other
				// (a collision may cost a miss, C09), which the model's failure cache, keyed by the key itself, does
				// not represent. Builds of the first key of a colliding pair therefore do not fail.
				g.Plan.Ok = true
			}

			if o.Cells && rng.Intn(2) == 0 {
				g.HasCell = true
				g.Cell = []int64{0, int64(time.Hour), int64(time.Second), -5, 1}[rng.Intn(5)]

				for u := rng.Intn(4); u > 0; u-- {
					g.Plan.Upd = append(g.Plan.Upd, []int64{-5, 0, 1, int64(time.Second), int64(time.Hour)}[rng.Intn(5)])
				}
			} else if o.Cells && rng.Intn(3) == 0 {
				g.Plan.Upd = []int64{int64(time.Minute)}
			}

			if o.Skip && rng.Intn(5) == 0 {
				g.Skip = true
			}

			if o.Hostile {
				g.Cancel = rng.Intn(2) == 0
				g.Rewrite = rng.Intn(2) == 0

				switch rng.Intn(6) {
				case 0, 1:
					g.Deadline = int64(time.Hour)
				case 2:
					g.Deadline = int64(5 * time.Second) // may run out while the Get or its build is parked
				}
			}

			// callers that have already gone away, or go away in the middle of the build: the builder then fails
			// with the (wrapped) error of its context
			switch rng.Intn(8) {
			case 0:
				g.CancelBefore = true
			case 1:
				g.Plan.CancelMid = true
			}

			gets = append(gets, g)
		}

		pol := Policy{FaultProb: o.FaultProb, ArriveEarly: 0.45, SleepProb: 0.12, MaxSteps: 2000, HoldBuilders: []float64{0, 0.5, 0.8}[rng.Intn(3)],
			Sleeps: []int64{1, int64(time.Second), int64(6 * time.Second), int64(12 * time.Second), int64(25 * time.Second), int64(61 * time.Second)}}
		if o.NoLongSleeps {
			pol.Sleeps = []int64{1, int64(time.Second)}
		}
		r.Exec(gets, pol)
		locks = r.KeyLocks()

		if o.FollowUp {
			// everything has finished: force expiry and ask for every key again
			time.Sleep(3 * time.Hour)

			var more []GetSpec

			for i, k := range keys {
				tok++
				more = append(more, GetSpec{Tid: 500 + i, Key: k, Plan: BuildPlan{Ok: true, Val: tok}})
			}

			r.Exec(more, Policy{MaxSteps: 2000})
			locks += r.KeyLocks()
			gets = append(gets, more...)
		}

		out.Term = fmt.Sprintf("FCase %s %s %s", conf.Coq(), List(r.Labels), Z(int64(locks)))
		out.PcStats = r.PcStats
		out.CtxObs = r.ctxObs
		out.Deadlines = map[int]int64{}

		for k, v := range r.deadlines {
			out.Deadlines[k] = v
		}
		out.Replay = map[string]any{"conf": conf, "init": init, "prelude": pre, "gets": gets, "steps": r.Replay, "finalKeyLocks": locks, "results": r.results}
		out.Nontriv = len(r.Labels) > 2*ng && ng >= 2
	})

	out.Conf = conf
	out.Tag = fmt.Sprintf("%s/%s/su=%v/sr=%v/fh=%v/ms=%d/ft=%d", conf.Variant, conf.Backend, conf.SyncUpdate, conf.SyncRead, conf.FailHard,
		conf.MaxStale, conf.FailedTTL)

	return out
}
