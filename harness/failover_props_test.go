package harness

import (
	"fmt"
	"testing"
	"testing/synctest"
	"time"
)

const steerRule = "steered schedules inside a synctest bubble (see C01): every call-out of the frontend is a parking point, the controller " +
	"releases one parked goroutine per step; "

// TestC02 adds injected backend faults at every kind of call-out and checks provenance of every result.
func TestC02(t *testing.T) {
	runFailoverProp(t, "C02", "check_c02", steerRule+
		"2..6 Gets on 1..3 keys, builders failing 35%, backend Read/Write faults injected with probability 0.2 at each backend call-out, "+
		"SkipRead contexts 1/5, typed (FailoverOf[int], zero = 0) and interface{} (nil = 0) values; builder tokens, seeds and error numbers are "+
		"unique so that 'belongs to another key' is decidable; non-trivial = more than 2 steps per Get and >= 2 Gets",
		260, FOpts{MinGets: 2, MaxGets: 6, Keys: 3, FailRate: 0.35, FaultProb: 0.2, Skip: true, Collide: true, Prelude: true})
}

// TestC04 runs to quiescence with hostile callers, then forces expiry and asks for every key again.
func TestC04(t *testing.T) {
	runFailoverProp(t, "C04", "check_c04", steerRule+
		"1..5 Gets on 1..2 keys, builders failing 35%, faults 0.15, callers cancel their context and overwrite their key buffer right after "+
		"Get returns (each with probability 1/2); after quiescence VerifKeyLocks()=0 is read, the clock is advanced by 3h and one more Get per "+
		"key is issued which must invoke its builder and must read what the last successful write left; non-trivial as C01",
		220, FOpts{MinGets: 1, MaxGets: 5, Keys: 2, FailRate: 0.35, FaultProb: 0.15, Hostile: true, FollowUp: true})
}

// TestC04Seq adds sequential Gets with fake-clock gaps around UpdateTTL / FailedUpdateTTL (part of C04's cases).
func addC04Seq(t *testing.T, e *Env, cf *CaseFile) {
	for i := 0; i < e.Pick(120, 1500); i++ {
		out, _, _ := GenFailWin(t, e)
		cf.Add(out.Term, "seq/"+out.Tag, out.Replay, out.Nontriv)
	}
}

func tidList(g []GetSpec, f func(GetSpec) bool) string {
	var it []uint64

	for _, x := range g {
		if f(x) {
			it = append(it, uint64(x.Tid))
		}
	}

	return NList(it)
}

// TestC05 covers bursts under SyncRead and failure suppression windows on the fake clock.
func TestC05(t *testing.T) {
	e := LoadEnv("C05")
	cf := NewCaseFile("C05", "From Cache Require Import Base Failover FailoverRun Check.", "check_c05")
	cf.Rule = steerRule + "(a) bursts: SyncRead on, 2..8 Gets on one key that is absent / stale / too stale, builders succeed, random schedules " +
		"(arrival at any step); (b) failure windows: sequential Gets on one key, a failing build at a random position, later Gets at fake-clock " +
		"offsets {0.5, 0.94, 1.06, 2} x FailedUpdateTTL after it, FailedUpdateTTL in {default 20s, 5s, -1}, contexts with and without a TTL " +
		"(5ms, 1h) and SkipRead; non-trivial: (a) >= 3 Gets, (b) a failed build followed by >= 2 Gets"

	on := true
	n := e.Pick(130, 1500)

	for i := 0; i < n; i++ {
		out := GenFailover(t, e.Rng, FOpts{MinGets: 2, MaxGets: 8, Keys: 1, ForceSyncRead: &on, InitStates: []string{"absent", "stale", "toostale"}})
		cf.Add(fmt.Sprintf("C05Case (%s) [] true", out.Term), "burst/"+out.Tag, out.Replay, out.Nontriv)
	}

	for i := 0; i < n; i++ {
		out, gets, sr := GenFailWin(t, e)
		cf.Add(fmt.Sprintf("C05Case (%s) %s false", out.Term, tidList(gets, func(g GetSpec) bool { return g.Skip })),
			fmt.Sprintf("failwin/%s/ft=%d/sr=%v", out.Conf.Variant, out.Conf.FailedTTL, sr), out.Replay, out.Nontriv)
	}

	if err := cf.Write(e); err != nil {
		t.Fatal(err)
	}
}

// TestC06 follows TTLs and contexts through every Get path.
func TestC06(t *testing.T) {
	e := LoadEnv("C06")
	cf := NewCaseFile("C06", "From Cache Require Import Base Failover FailoverRun FailoverObs Ctx Check.", "check_c06")
	cf.Rule = steerRule + "1..5 Gets on 1..2 keys; caller contexts without TTL or with a TTL cell in {0, 1h, 1s, -5ns, 1ns}; builders call " +
		"WithTTL(ctx, x, true) 0..3 times with x in {-5ns, 0, 1ns, 1s, 1h}; SkipRead 1/5; callers cancel their context right after return, before the call or in the middle of the build, or carry a deadline (1h / 5s); " +
		"the wrapping backend records TTL(ctx) of every Write, the builder records Err/Done/Deadline/Value of its context at entry and exit; " +
		"all Get paths arise from the initial entry state (cold miss, sync update, background update, waiter); non-trivial as C01"

	for i := 0; i < e.Pick(260, 3000); i++ {
		out := GenFailover(t, e.Rng, FOpts{MinGets: 1, MaxGets: 5, Keys: 2, FailRate: 0.2, Cells: true, Skip: true, Hostile: true, Prelude: true})
		gets := out.Replay["gets"].([]GetSpec)
		gi := make([]string, len(gets))

		for j, g := range gets {
			gi[j] = fmt.Sprintf("(mkGet %s %s %s %s %s)", N(uint64(g.Tid)), cellCoq(g), ZList(g.Plan.Upd), Bool(g.Skip), Bool(g.Plan.Ok))
		}

		byTid := map[int]GetSpec{}
		for _, g := range gets {
			byTid[g.Tid] = g
		}

		var ctxs []string

		for _, o := range out.CtxObs {
			// every builder context: the model of Ctx.v predicts Err (entry, exit), Done == nil, Deadline and the
			// visibility of the caller's value from the caller's context, the cancellations so far and the clock;
			// the property: a background one is never cancelled nor deadlined and still exposes the caller's values
			tid := o["tid"].(int)
			ctxs = append(ctxs, CtxObsCoq(o, byTid[tid], out.Deadlines[tid]))
			cf.Count(fmt.Sprintf("builder_ctx/bg=%v/cancelledAtEntry=%v/errAtExit=%v", o["bg"], o["cancelledAtEntry"], o["errAtExit"]), 1)
		}

		out.Replay["builderContexts"] = out.CtxObs
		cf.Add(fmt.Sprintf("C06Case (%s) %s %s", out.Term, List(gi), List(ctxs)), out.Tag, out.Replay, out.Nontriv)
	}

	if err := cf.Write(e); err != nil {
		t.Fatal(err)
	}
}

// TestC03 enumerates the decision table of a lone Get completely.
func TestC03(t *testing.T) {
	e := LoadEnv("C03")
	cf := NewCaseFile("C03", "From Cache Require Import Base Failover FailoverRun Check.", "check_c03")
	cf.Rule = "complete enumeration: entry state {absent, fresh, stale within MaxStaleness, too stale} x failure cache {empty, hit} x SyncUpdate x " +
		"FailHard x MaxStaleness {0, 1m} x FailedUpdateTTL {default, -1} x builder {ok, error} x {Failover/ShardedMap, Failover/SyncMap, " +
		"FailoverOf/ShardedMapOf}; SyncRead off (quick) / off and on (thorough); one Get (after a failing warm-up Get when a cached failure is " +
		"required), run to quiescence including its background build; in 2 of 5 cells the caller's context is cancelled before the call or in the middle of the build (the table must not depend on it); every cell is distinct; non-trivial = not a plain fresh hit"
	cf.Extra["exhaustive"] = true

	type api struct{ variant, backend string }

	apis := []api{{"Legacy", FlSharded}, {"Legacy", FlSyncM}, {"Generic", FlShardedOf}}
	syncReads := []bool{false}

	if e.Thorough() {
		syncReads = []bool{false, true}
	}

	bools := []bool{false, true}

	for _, a := range apis {
		for _, st := range []string{"absent", "fresh", "stale", "toostale"} {
			for _, hit := range bools {
				for _, su := range bools {
					for _, fh := range bools {
						for _, ms := range []int64{0, int64(time.Minute)} {
							for _, ft := range []int64{0, -1} {
								for _, ok := range bools {
									for _, sr := range syncReads {
										if hit && ft == -1 {
											continue // a failure cannot be cached
										}

										if st == "toostale" && ms == 0 {
											continue // without MaxStaleness nothing is too stale
										}

										conf := FConf{Variant: a.variant, Backend: a.backend, SyncUpdate: su, SyncRead: sr, FailHard: fh,
											MaxStale: ms, FailedTTL: ft, Stat: e.Rng.Intn(2) == 0, Debug: e.Rng.Intn(4) == 0, Warn: e.Rng.Intn(4) == 0}
										key := []byte("key1")

										var (
											term string
											rep  map[string]any
											gets []GetSpec
										)

										synctest.Test(t, func(t *testing.T) {
											r := NewFEngine(t, e.Rng, conf)

											defer r.Close()

											if hit {
												// warm-up: a failing build caches the failure
												r.Exec([]GetSpec{{Tid: 1, Key: key, Plan: BuildPlan{Ok: false, Err: 7}}}, Policy{MaxSteps: 500})
											}

											switch st {
											case "fresh":
												r.Seed(key, 11, time.Hour)
											case "stale":
												r.Seed(key, 11, -2*time.Second) // expired 2s ago
											case "toostale":
												r.Seed(key, 11, -2*time.Second-2*time.Duration(ms))
											}

											// the table has no column for the caller's context: a caller that has already gone away, or goes
											// away in the middle of the build, gets the same outcome
											g := GetSpec{Tid: 2, Key: key, Plan: BuildPlan{Ok: ok, Val: 33, Err: 9}}

											switch e.Rng.Intn(5) {
											case 0:
												g.CancelBefore = true
											case 1:
												g.Plan.CancelMid = true
											}

											gets = []GetSpec{g}
											r.Exec(gets, Policy{MaxSteps: 500})
											term = fmt.Sprintf("FCase %s %s %s", conf.Coq(), List(r.Labels), Z(int64(r.KeyLocks())))
											rep = map[string]any{"conf": conf, "state": st, "failureCached": hit, "builderOk": ok, "steps": r.Replay,
												"results": r.results}
										})

										rep["get"] = gets[0]

										built := "(inl 33)"
										if !ok {
											built = "(inr 9)"
										}

										cf.Add(fmt.Sprintf("C03Case (%s) 2%%N %s %s", term, Opt(hit, "(EOther 7)"), built),
											fmt.Sprintf("%s/%s/%s/hit=%v/su=%v/fh=%v/ms=%d/ft=%d/ok=%v/sr=%v", a.variant, a.backend, st, hit, su, fh, ms, ft, ok, sr),
											rep, st != "fresh")
									}
								}
							}
						}
					}
				}
			}
		}
	}

	if err := cf.Write(e); err != nil {
		t.Fatal(err)
	}
}

// GenFailWin runs sequential Gets on one key around a failing build: optional stale seed, a failing
// build at a random position, later Gets at fake-clock offsets inside / outside the FailedUpdateTTL
// window, sometimes after an ExpireAll of the backend; contexts with and without TTL, SkipRead.
func GenFailWin(t *testing.T, e *Env) (FOut, []GetSpec, bool) {
	conf := randFConf(e.Rng)
	conf.FailedTTL = []int64{0, int64(5 * time.Second), -1}[e.Rng.Intn(3)]
	conf.UpdateTTL = []int64{0, int64(10 * time.Second), int64(2 * time.Second)}[e.Rng.Intn(3)]
	conf.Debug, conf.Warn = false, false
	ft := conf.EffFailedTTL()

	if ft < 0 {
		ft = int64(20 * time.Second)
	}

	ng := 3 + e.Rng.Intn(5)
	failAt := e.Rng.Intn(ng - 1)
	key := []byte("key1")
	seed := e.Rng.Intn(5) // 0,1: stale value present; 2: too stale; 3,4: nothing

	var (
		gets []GetSpec
		out  FOut
	)

	for j := 0; j < ng; j++ {
		g := GetSpec{Tid: j + 1, Key: key, Plan: BuildPlan{Ok: j != failAt, Val: int64(200 + j), Err: int64(50 + j)}}

		switch {
		case j > failAt:
			g.SleepBefore = []int64{ft / 2, ft * 94 / 100, ft * 106 / 100, 2 * ft}[e.Rng.Intn(4)]

			if j > failAt+1 {
				g.SleepBefore = []int64{1, ft / 10, ft / 2}[e.Rng.Intn(3)]
			}

			g.ExpireAllBefore = e.Rng.Intn(4) == 0
		case j > 0:
			// earlier successful builds must have expired again for the failing build to happen
			g.SleepBefore = []int64{int64(2 * time.Hour), int64(time.Second)}[e.Rng.Intn(2)]
			g.ExpireAllBefore = e.Rng.Intn(2) == 0
		}

		switch e.Rng.Intn(5) {
		case 0:
			g.HasCell, g.Cell = true, int64(5*time.Millisecond)
		case 1:
			g.HasCell, g.Cell = true, int64(time.Hour)
		}

		if e.Rng.Intn(8) == 0 {
			g.Skip = true
		}

		if j == failAt {
			// the caller of the failing build has gone away (before the call / in the middle of the build): the failure is
			// cached all the same
			switch e.Rng.Intn(4) {
			case 0:
				g.CancelBefore = true
			case 1:
				g.Plan.CancelMid = true
			}
		}

		gets = append(gets, g)
	}

	synctest.Test(t, func(t *testing.T) {
		r := NewFEngine(t, e.Rng, conf)
		r.PostParks = e.Rng.Intn(2) == 0

		defer r.Close()

		switch seed {
		case 0, 1:
			r.Seed(key, 11, -2*time.Second)
		case 2:
			r.Seed(key, 11, -3*time.Hour)
		}

		r.Exec(gets, Policy{MaxSteps: 3000})
		out.Term = fmt.Sprintf("FCase %s %s %s", conf.Coq(), List(r.Labels), Z(int64(r.KeyLocks())))
		out.Replay = map[string]any{"conf": conf, "seed": seed, "gets": gets, "steps": r.Replay, "results": r.results, "finalKeyLocks": r.KeyLocks()}
		out.PcStats = r.PcStats
	})

	out.Conf = conf
	out.Nontriv = ng-failAt > 2
	out.Tag = fmt.Sprintf("failwin/%s/ft=%d/ut=%d", conf.Variant, conf.FailedTTL, conf.UpdateTTL)

	return out, gets, conf.SyncRead
}
