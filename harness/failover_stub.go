package harness

import "testing"

// addC18Failover is replaced when the failover harness is in place.
func addC18Failover(t *testing.T, e *Env, cf *CaseFile) {}
