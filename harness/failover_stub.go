package harness

import (
	"testing"
)

// addC18Failover adds steered Failover workloads with a stats tracker to the C18 cases.
func addC18Failover(t *testing.T, e *Env, cf *CaseFile) {
	for i := 0; i < e.Pick(150, 1500); i++ {
		out := GenFailover(t, e.Rng, FOpts{MinGets: 1, MaxGets: 6, Keys: 2, FailRate: 0.35, FaultProb: 0.1, Skip: true})
		cf.Add("C18F ("+out.Term+")", "failover/"+out.Tag, out.Replay, out.Nontriv && out.Conf.Stat)
	}
}
