module verifharness

go 1.25

require github.com/bool64/cache v0.0.0

require github.com/cespare/xxhash/v2 v2.2.0

require github.com/anishathalye/porcupine v1.3.0

replace github.com/bool64/cache => /repo
