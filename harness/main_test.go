//go:debug randseednop=0

package harness
